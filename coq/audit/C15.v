From Coq Require Import Reals ZArith Bool String.
From KV Require Import Base.IEEE Base.Outcome C15.Model C15.BaseF32 C15.ProofsR C15.ProofsGains C15.ProofsSide
     C15.ProofsAtten C15.ProofsFinal C15.Props.
Local Open Scope R_scope.

Eval vm_compute in "THEOREM spatialize_level_product_R"%string.
Check spatialize_level_product_R :
  forall (p10 ease : R -> R) (d sinL cosL sinR cosR dmin dmax : R) (atten : bool) (l r : R)
         (lp : vec3 R) (lq : quat R) (pos : vec3 R) (sraw : R),
    spatialize_R p10 ease d sinL cosL sinR cosR dmin dmax atten (l, r) lp lq pos sraw =
    let A := if atten then amp_of_rv p10 (ease (1 - relR dmin dmax (dist lp pos))) else 1 in
    let s := clamp01 sraw in
    if Reqb s 0 then Ok (l * A, r * A)
    else Ok ((l * A + r * A) / 2 * fst (ear_gains_R d sinL cosL sinR cosR s lp lq pos),
             (l * A + r * A) / 2 * snd (ear_gains_R d sinL cosL sinR cosR s lp lq pos)).
Print Assumptions spatialize_level_product_R.

Eval vm_compute in "THEOREM attenuation_of_distance_R"%string.
Check attenuation_of_distance_R :
  forall (p10 ease : R -> R) (dmin dmax : R),
    ease_ok ease -> powf10_ok p10 ->
    (forall d, d <= dmin -> d < dmax -> attenuation_R p10 ease dmin dmax d = Ok 1) /\
    (forall d, dmax <= d -> attenuation_R p10 ease dmin dmax d = Ok 0) /\
    (forall d1 d2, d1 <= d2 ->
       exists a1 a2, attenuation_R p10 ease dmin dmax d1 = Ok a1 /\ attenuation_R p10 ease dmin dmax d2 = Ok a2 /\
                     0 <= a2 /\ a2 <= a1 /\ a1 <= 1).
Print Assumptions attenuation_of_distance_R.

Eval vm_compute in "THEOREM attenuation_total_R"%string.
Check attenuation_total_R :
  forall (p10 ease : R -> R) (dmin dmax d : R),
    ease_ok ease -> powf10_ok p10 ->
    exists a, attenuation_R p10 ease dmin dmax d = Ok a /\ 0 <= a <= 1.
Print Assumptions attenuation_total_R.

Eval vm_compute in "THEOREM ear_gain_range_R"%string.
Check ear_gain_range_R :
  forall (d sinL cosL sinR cosR sraw : R) (lp : vec3 R) (lq : quat R) (pos : vec3 R),
    unitq lq -> ears_ok sinL cosL sinR cosR ->
    let s := clamp01 sraw in
    0 <= s <= 1 /\
    1 - s <= fst (ear_gains_R d sinL cosL sinR cosR s lp lq pos) <= 1 /\
    1 - s <= snd (ear_gains_R d sinL cosL sinR cosR s lp lq pos) <= 1.
Print Assumptions ear_gain_range_R.

Eval vm_compute in "THEOREM strength_zero_unpanned_R"%string.
Check strength_zero_unpanned_R :
  forall (p10 ease : R -> R) (d sinL cosL sinR cosR dmin dmax l r : R) (lp : vec3 R) (lq : quat R) (pos : vec3 R) (sraw : R),
    sraw <= 0 ->
    spatialize_R p10 ease d sinL cosL sinR cosR dmin dmax false (l, r) lp lq pos sraw = Ok (l, r) /\
    spatialize_R p10 ease d sinL cosL sinR cosR dmin dmax true (l, r) lp lq pos sraw =
      Ok (l * amp_of_rv p10 (ease (1 - relR dmin dmax (dist lp pos))),
          r * amp_of_rv p10 (ease (1 - relR dmin dmax (dist lp pos)))).
Print Assumptions strength_zero_unpanned_R.

Eval vm_compute in "THEOREM no_listener_silent"%string.
Check no_listener_silent :
  forall (F D : Type) (SF : Scalar F) (up : F -> D) (down : D -> F) (p10 : F -> F) (ease : D -> D)
         (d sinL cosL sinR cosR dmin dmax : F) (atten : bool) (input : F * F) (e : emitter F) (t : F),
    spatial_frame up down p10 ease d sinL cosL sinR cosR dmin dmax atten input None e t = Ok (s0, s0).
Print Assumptions no_listener_silent.

Eval vm_compute in "THEOREM side_preference_R"%string.
Check side_preference_R :
  forall (d sinL cosL sinR cosR s : R) (lp : vec3 R) (lq : quat R) (pos : vec3 R),
    unitq lq -> ears_ok sinL cosL sinR cosR -> ears_outward sinL cosL -> 0 <= d -> 0 <= s <= 1 ->
    dot (v_sub pos lp) (xaxis lq) <= - d ->
    snd (ear_gains_R d sinL cosL sinR cosR s lp lq pos) <= fst (ear_gains_R d sinL cosL sinR cosR s lp lq pos).
Print Assumptions side_preference_R.

Eval vm_compute in "THEOREM side_preference_right_R"%string.
Check side_preference_right_R :
  forall (d sinL cosL sinR cosR s : R) (lp : vec3 R) (lq : quat R) (pos : vec3 R),
    unitq lq -> ears_ok sinL cosL sinR cosR -> ears_outward sinL cosL -> 0 <= d -> 0 <= s <= 1 ->
    d <= dot (v_sub pos lp) (xaxis lq) ->
    fst (ear_gains_R d sinL cosL sinR cosR s lp lq pos) <= snd (ear_gains_R d sinL cosL sinR cosR s lp lq pos).
Print Assumptions side_preference_right_R.

Eval vm_compute in "THEOREM side_preference_inside_head_refuted"%string.
Check side_preference_inside_head_refuted :
  exists pos : vec3 f32,
    lt32 (vx pos) (Z32 0) = true /\ lt32 (neg32 EAR_DISTANCE32) (vx pos) = true /\
    lt32 (fst (ear_gains_b32 (Z32 1) (V32 0 0 0) Q_ID32 pos)) (snd (ear_gains_b32 (Z32 1) (V32 0 0 0) Q_ID32 pos)) = true.
Print Assumptions side_preference_inside_head_refuted.

Eval vm_compute in "THEOREM side_preference_inside_head_refuted_R"%string.
Check side_preference_inside_head_refuted_R :
  exists (d sL cL sR cR : R) (lp : vec3 R) (lq : quat R) (pos : vec3 R),
    unitq lq /\ ears_ok sL cL sR cR /\ ears_outward sL cL /\ 0 <= d /\
    - d < dot (v_sub pos lp) (xaxis lq) < 0 /\
    fst (ear_gains_R d sL cL sR cR 1 lp lq pos) < snd (ear_gains_R d sL cL sR cR 1 lp lq pos).
Print Assumptions side_preference_inside_head_refuted_R.

Eval vm_compute in "THEOREM mirror_swap_R"%string.
Check mirror_swap_R :
  forall (d sinL cosL sinR cosR s : R) (lp : vec3 R) (lq : quat R) (pos : vec3 R),
    unitq lq -> ears_ok sinL cosL sinR cosR ->
    ear_gains_R d sinL cosL sinR cosR s lp lq (mirror lp lq pos) =
    (snd (ear_gains_R d sinL cosL sinR cosR s lp lq pos), fst (ear_gains_R d sinL cosL sinR cosR s lp lq pos)).
Print Assumptions mirror_swap_R.

Eval vm_compute in "THEOREM rigid_motion_invariant_R"%string.
Check rigid_motion_invariant_R :
  forall (p10 ease : R -> R) (d sinL cosL sinR cosR dmin dmax : R) (atten : bool) (inp : R * R)
         (g : quat R) (T lp : vec3 R) (lq : quat R) (pos : vec3 R) (sraw : R),
    unitq g -> unitq lq -> ears_ok sinL cosL sinR cosR ->
    spatialize_R p10 ease d sinL cosL sinR cosR dmin dmax atten inp (move g T lp) (q_mul g lq) (move g T pos) sraw =
    spatialize_R p10 ease d sinL cosL sinR cosR dmin dmax atten inp lp lq pos sraw.
Print Assumptions rigid_motion_invariant_R.

Eval vm_compute in "THEOREM distance_param_follows"%string.
Check distance_param_follows :
  forall (F D : Type) (SF : Scalar F) (SD : Scalar D) (up : F -> D) (down : D -> F) (map_ease : D -> D)
         (m : mapping F D) (tp : vec3 F),
    value_from_listener_distance up down map_ease m None tp = None /\
    forall li, value_from_listener_distance up down map_ease m (Some li) tp =
               Some (mapping_map down map_ease m (up (v_length (v_sub (l_pos li) tp)))).
Print Assumptions distance_param_follows.

Eval vm_compute in "THEOREM distance_param_follows_R"%string.
Check distance_param_follows_R :
  forall (map_ease : R -> R) (m : mapping R R) (li : listener R) (tp : vec3 R),
    value_from_listener_distance idR idR map_ease m (Some li) tp =
    Some (mapping_map idR map_ease m (dist (l_pos li) tp)).
Print Assumptions distance_param_follows_R.

Eval vm_compute in "THEOREM spatial_coincident_R"%string.
Check spatial_coincident_R :
  forall (d : R) (lq : quat R) (p : vec3 R),
    unitq lq ->
    norm2 (v_sub p (v_add p (q_rot lq (v_scale NEG_X d)))) = d * d /\
    norm2 (v_sub p (v_add p (q_rot lq (v_scale POS_X d)))) = d * d /\
    dist p p = 0.
Print Assumptions spatial_coincident_R.
