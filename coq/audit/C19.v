From Coq Require Import ZArith QArith String.
From KV Require Import Base.Outcome Base.Num C19.Model C19.ProofsTime C19.Props.
Local Open Scope Q_scope.

Eval vm_compute in "THEOREM clocktime_add_exact"%string.
Check clocktime_add_exact :
  forall (c : ctime Q) (t : Q),
    wf c -> 0 <= t -> value c + t < inject_Z (2 ^ 64) ->
    exists c', ct_add_pos c t = Ok c' /\ wf c' /\ value c' == value c + t.
Print Assumptions clocktime_add_exact.

Eval vm_compute in "THEOREM clocktime_sub_exact"%string.
Check clocktime_sub_exact :
  forall (c : ctime Q) (t : Q),
    wf c -> 0 <= t -> t <= value c -> (ticks c <= 2 ^ 64 - 1)%Z ->
    exists c', ct_sub_pos c t = Ok c' /\ wf c' /\ value c' == value c - t.
Print Assumptions clocktime_sub_exact.

Eval vm_compute in "THEOREM clocktime_sub_saturates"%string.
Check clocktime_sub_saturates :
  forall (c : ctime Q) (t : Q),
    wf c -> (ticks c <= 2 ^ 64 - 2)%Z -> value c < t ->
    ct_sub_pos c t = Ok {| ticks := 0; fraction := 0 |}.
Print Assumptions clocktime_sub_saturates.

Eval vm_compute in "THEOREM clocktime_sub_never_later"%string.
Check clocktime_sub_never_later :
  forall (c : ctime Q) (t : Q),
    wf c -> (ticks c <= 2 ^ 64 - 2)%Z -> 0 <= t ->
    exists c', ct_sub_pos c t = Ok c' /\ wf c' /\ value c' <= value c.
Print Assumptions clocktime_sub_never_later.

Eval vm_compute in "THEOREM clocktime_add_sub_roundtrip"%string.
Check clocktime_add_sub_roundtrip :
  forall (c : ctime Q) (t : Q),
    wf c -> 0 <= t -> value c + t < inject_Z (2 ^ 64) ->
    exists c1 c2, ct_add_pos c t = Ok c1 /\ ct_sub_pos c1 t = Ok c2 /\
                  ticks c2 = ticks c /\ fraction c2 == fraction c.
Print Assumptions clocktime_add_sub_roundtrip.

Eval vm_compute in "THEOREM clocktime_order"%string.
Check clocktime_order :
  forall a b : ctime Q, frac_ok a -> frac_ok b -> ct_cmp a b = Some (value a ?= value b).
Print Assumptions clocktime_order.
