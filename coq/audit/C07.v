(** C07 — statement pins: every theorem of Props.v, its full statement, its assumptions. *)
From Coq Require Import ZArith List Arith Sorted String.
From KV Require Import C07.Model C07.ProofsBuf C07.ProofsSys C07.ProofsThm C07.ProofsFinal C07.Props.
Import ListNotations.

Eval vm_compute in "THEOREM tb_ownership"%string.
Check tb_ownership : forall K p sched c,
  let b := bufs (run K sched (init p)) c in
  w_in b <> back b /\ back b <> r_out b /\ w_in b <> r_out b.
Print Assumptions tb_ownership.

Eval vm_compute in "THEOREM no_tear"%string.
Check no_tear : forall K p sched c,
  let s := run K sched (init p) in
  let b := bufs s c in
  (forall a k v, In (a, k, v) (applied (rets b)) -> exists st dn, pub_at b k = Some (v, st, dn)) /\
  (forall d a, rp s = RDrain c (RHalf d a) ->
     exists v st dn, pub_at b (taken b) = Some (v, st, dn) /\
                     tget (mem b) (r_out b) = cell_of v /\ d = true /\ a = fst v) /\
  pub_vals b ++ inflight c (wp s) ++ cmds_of c (prog s) = cmds_of c p.
Print Assumptions no_tear.

Eval vm_compute in "THEOREM tb_exactly_once_last_wins"%string.
Check tb_exactly_once_last_wins : forall K p sched c, c < kx K ->
  let s := run K sched (init p) in
  let b := bufs s c in
  StronglySorted gt (applied_idx (rets b)) /\
  (forall a1 a2 k v1 v2, In (a1, k, v1) (applied (rets b)) -> In (a2, k, v2) (applied (rets b)) ->
                         a1 = a2 /\ v1 = v2) /\
  (forall k v st dn, pub_at b k = Some (v, st, dn) -> st + 1 <= cd s ->
     exists a k' v', In (a, k', v') (applied (rets b)) /\ k <= k' /\ a <= st + 1) /\
  (forall v st dn, pub_at b (npub b) = Some (v, st, dn) -> st + 1 <= cd s ->
     exists a, In (a, npub b, v) (applied (rets b)) /\ dn + 1 <= a <= st + 1).
Print Assumptions tb_exactly_once_last_wins.

Eval vm_compute in "THEOREM tb_quiescent_delivery"%string.
Check tb_quiescent_delivery : forall K p sched,
  let s := run K sched (init p) in
  rp s = RBetween ->
  exists m, m <= 1 + 4 * kx K /\
    let s' := run K (repeat R m) s in
    rp s' = RBetween /\ cd s' = S (cd s) /\
    forall c v st dn, c < kx K -> pub_at (bufs s c) (npub (bufs s c)) = Some (v, st, dn) ->
      pubs (bufs s' c) = pubs (bufs s c) /\
      exists a, In (a, npub (bufs s c), v) (applied (rets (bufs s' c))) /\ a <= S (cs s).
Print Assumptions tb_quiescent_delivery.

Eval vm_compute in "THEOREM callback_semantics"%string.
Check callback_semantics : forall K p sched c, c < kx K ->
  let s := run K sched (init p) in
  let b := bufs s c in
  (forall a k v, In (a, k, v) (applied (rets b)) ->
     exists st dn, pub_at b k = Some (v, st, dn) /\ dn + 1 <= a <= st + 1 /\ a <= cs s /\
       (forall k' v' st' dn', k < k' -> pub_at b k' = Some (v', st', dn') -> a <= st')) /\
  (forall k v j, pub_at b k = Some (v, j, j) ->
     (forall k' v' st' dn', k < k' -> pub_at b k' = Some (v', st', dn') -> j + 1 <= dn') ->
     j + 1 <= cd s -> In (j + 1, k, v) (applied (rets b))) /\
  (forall k k' v v' st dn st' dn' a, pub_at b k = Some (v, st, dn) -> pub_at b k' = Some (v', st', dn') ->
     k < k' -> st' <= dn -> ~ In (a, k, v) (applied (rets b))) /\
  (forall k v j, pub_at b k = Some (v, j + 1, j) ->
     (forall k' v' st' dn', k < k' -> pub_at b k' = Some (v', st', dn') -> j + 2 <= dn') ->
     j + 2 <= cd s -> In (j + 1, k, v) (applied (rets b)) \/ In (j + 2, k, v) (applied (rets b))) /\
  (forall a1 a2 k v1 v2, In (a1, k, v1) (applied (rets b)) -> In (a2, k, v2) (applied (rets b)) ->
                         a1 = a2 /\ v1 = v2).
Print Assumptions callback_semantics.

Eval vm_compute in "THEOREM decoder_commands"%string.
Check decoder_commands : forall p sched c, c < 3 ->
  let s := run 3 sched (init p) in
  let b := bufs s c in
  (forall a k v, In (a, k, v) (applied (rets b)) ->
     exists st dn, pub_at b k = Some (v, st, dn) /\ dn + 1 <= a <= st + 1 /\ a <= cs s /\
       (forall k' v' st' dn', k < k' -> pub_at b k' = Some (v', st', dn') -> a <= st')) /\
  (forall k v j, pub_at b k = Some (v, j, j) ->
     (forall k' v' st' dn', k < k' -> pub_at b k' = Some (v', st', dn') -> j + 1 <= dn') ->
     j + 1 <= cd s -> In (j + 1, k, v) (applied (rets b))) /\
  (forall k k' v v' st dn st' dn' a, pub_at b k = Some (v, st, dn) -> pub_at b k' = Some (v', st', dn') ->
     k < k' -> st' <= dn -> ~ In (a, k, v) (applied (rets b))) /\
  (forall k v j, pub_at b k = Some (v, j + 1, j) ->
     (forall k' v' st' dn', k < k' -> pub_at b k' = Some (v', st', dn') -> j + 2 <= dn') ->
     j + 2 <= cd s -> In (j + 1, k, v) (applied (rets b)) \/ In (j + 2, k, v) (applied (rets b))) /\
  (forall a1 a2 k v1 v2, In (a1, k, v1) (applied (rets b)) -> In (a2, k, v2) (applied (rets b)) ->
                         a1 = a2 /\ v1 = v2).
Print Assumptions decoder_commands.

Eval vm_compute in "THEOREM first_callback"%string.
Check first_callback : forall K p sched c, c < kx K ->
  let s := run K sched (init p) in
  let b := bufs s c in
  forall k v, pub_at b k = Some (v, 0, 0) ->
    (forall k' v' st' dn', k < k' -> pub_at b k' = Some (v', st', dn') -> 1 <= dn') ->
    1 <= cd s -> In (1, k, v) (applied (rets b)).
Print Assumptions first_callback.

Eval vm_compute in "THEOREM kinds_independent"%string.
Check kinds_independent : forall K t s c,
  (match t with W => wkind s | R => rkind s end) <> Some c -> bufs (step K t s) c = bufs s c.
Print Assumptions kinds_independent.

Eval vm_compute in "THEOREM stamps_meaning"%string.
Check stamps_meaning : forall K p sched c k v st dn,
  let s := run K sched (init p) in
  pub_at (bufs s c) k = Some (v, st, dn) -> dn <= st <= dn + 1 /\ st <= cs s /\ dn <= cd s.
Print Assumptions stamps_meaning.
