From Coq Require Import ZArith QArith Qabs Qreduction List String.
From KV Require Import Base.IEEE Base.Outcome Base.Num C19.Model C17.Model
  C17.ProofsLfo C17.ProofsTween C17.ProofsOrder C17.ProofsMap C17.ProofsExamples C17.Props.
Import ListNotations.
Local Open Scope Q_scope.

Eval vm_compute in "THEOREM waveform_range_Q"%string.
Check waveform_range_Q :
  forall (tau : Q) (sin : Q -> Q),
    (forall x : Q, -1 <= sin x /\ sin x <= 1) ->
    forall (w : waveform Q) (phase : Q), 0 <= phase ->
      -1 <= wave_value tau sin w phase /\ wave_value tau sin w phase <= 1.
Print Assumptions waveform_range_Q.

Eval vm_compute in "THEOREM lfo_value_range_Q"%string.
Check lfo_value_range_Q :
  forall (tau : Q) (sin : Q -> Q) (powf : Q -> Q -> Q) (secs_to_ns : Q -> Z) (ns_to_secs : Z -> Q),
    (forall x : Q, -1 <= sin x /\ sin x <= 1) ->
    forall (dt : Q) (lookup : Z -> option Q) (l : lfo Q),
      let l' := lfo_update tau sin powf secs_to_ns ns_to_secs dt lookup l in
      (0 <= l_phase l' /\ l_phase l' < 1) /\
      p_raw (l_off l') - Qabs (p_raw (l_amp l')) <= l_value l' /\
      l_value l' <= p_raw (l_off l') + Qabs (p_raw (l_amp l')).
Print Assumptions lfo_value_range_Q.

Eval vm_compute in "THEOREM phase_invariant_Q"%string.
Check phase_invariant_Q :
  forall (tau : Q) (sin : Q -> Q) (w : waveform Q) (f a o : Q) (dts : list Q) (phase : Q),
    dts <> [] \/ (0 <= phase /\ phase < 1) ->
    0 <= lfo_phase_run tau sin w f a o dts phase /\ lfo_phase_run tau sin w f a o dts phase < 1.
Print Assumptions phase_invariant_Q.

Eval vm_compute in "THEOREM negative_phase_witness_Q"%string.
Check negative_phase_witness_Q :
  l_phase f15_lfo = - (9 # 10) /\ l_phase f15_after = 1 # 10 /\ l_value f15_after = 1 # 5.
Print Assumptions negative_phase_witness_Q.

Eval vm_compute in "THEOREM negative_phase_witness_b64"%string.
Check negative_phase_witness_b64 :
  signbit64 (l_phase f15_lfo64) = true /\
  le64 (Z64 0) (l_phase f15_after64) = true /\ lt64 (l_phase f15_after64) (Z64 1) = true /\
  le64 (sub64 (Z64 0) (abs64 (Z64 1))) (l_value f15_after64) = true /\
  le64 (l_value f15_after64) (add64 (Z64 0) (abs64 (Z64 1))) = true.
Print Assumptions negative_phase_witness_b64.

Eval vm_compute in "THEOREM phase_one_b64"%string.
Check phase_one_b64 :
  bits_of_f64 (nrem_euclid1 (f64_of_bits 0xBC00000000000000)) = bits_of_f64 (Z64 1) /\
  bits_of_f64 (wave_value tau64 (fun x => x) Triangle (Z64 1)) = bits_of_f64 (Z64 0) /\
  bits_of_f64 (wave_value tau64 (fun x => x) Saw (Z64 1)) = bits_of_f64 (Z64 0) /\
  bits_of_f64 (wave_value tau64 (fun x => x) (Pulse (Z64 1)) (Z64 1)) = bits_of_f64 (nm1 (T:=f64)).
Print Assumptions phase_one_b64.

Eval vm_compute in "THEOREM lfo_frequency_Q"%string.
Check lfo_frequency_Q :
  forall (tau : Q) (sin : Q -> Q) (w : waveform Q) (f a o : Q) (dts : list Q) (phase0 : Q),
    dts <> [] \/ (0 <= phase0 /\ phase0 < 1) ->
    lfo_phase_run tau sin w f a o dts phase0 == Qfrac_e (phase0 + f * Qsum dts).
Print Assumptions lfo_frequency_Q.

Eval vm_compute in "THEOREM tweener_law"%string.
Check tweener_law :
  forall (powf : Q -> Q -> Q) (secs_to_ns : Q -> Z) (ns_to_secs : Z -> Q) (t0 : tweener Q)
         (target : Q) (st : start_time) (dur : Z) (e : easing Q) (dts : list Q),
    start_ready st -> all_nonneg dts -> dts <> [] ->
    let tw := {| tw_start := st; tw_dur := dur; tw_easing := e |} in
    let d := ns_to_secs dur in
    let el := Qred (Qsum dts) in
    let t := trun powf secs_to_ns ns_to_secs dts (tweener_set t0 target tw) in
    (el < d -> t_value t = lerp (t_value t0) target (ease powf e (ndiv el d))) /\
    (d <= el ->
       t_value t = target /\ t_state t = TIdle /\
       (forall more : list Q, t_value (trun powf secs_to_ns ns_to_secs more t) = target)).
Print Assumptions tweener_law.

Eval vm_compute in "THEOREM tweener_delayed_waits"%string.
Check tweener_delayed_waits :
  forall (powf : Q -> Q -> Q) (secs_to_ns : Q -> Z) (ns_to_secs : Z -> Q) (v0 v1 time : Q)
         (r dur : Z) (e : easing Q) (value dt : Q),
    (0 < r)%Z ->
    tweener_update powf secs_to_ns ns_to_secs dt
      {| t_state := TTweening v0 v1 time {| tw_start := Delayed r; tw_dur := dur; tw_easing := e |};
         t_value := value |} =
    {| t_state := TTweening v0 v1 time
                    {| tw_start := Delayed (Z.max 0 (r - secs_to_ns dt)); tw_dur := dur; tw_easing := e |};
       t_value := value |}.
Print Assumptions tweener_delayed_waits.

Eval vm_compute in "THEOREM once_per_chunk"%string.
Check once_per_chunk :
  forall (T : Type) (NT : Num T) (tau : T) (sin : T -> T) (powf : T -> T -> T) (secs_to_ns : T -> Z)
         (ns_to_secs : Z -> T) (lens : list Z) (st : rstate T),
    map call_of (r_log (fold_left (process_chunk tau sin powf secs_to_ns ns_to_secs) lens st)) =
    map call_of (r_log st) ++
    flat_map (expected_calls (r_dt st) (map fst (r_mods st)) (map fst (r_clocks st)) (map fst (r_probes st)))
             lens.
Print Assumptions once_per_chunk.

Eval vm_compute in "THEOREM linked_same_chunk"%string.
Check linked_same_chunk :
  forall (T : Type) (NT : Num T) (tau : T) (sin : T -> T) (powf : T -> T -> T) (secs_to_ns : T -> Z)
         (ns_to_secs : Z -> T) (st : rstate T) (len pid w id : Z) (m : mapping T) (raw0 : T),
    In (pid, PrParam w (linked id m raw0)) (r_probes st) ->
    let st' := process_chunk tau sin powf secs_to_ns ns_to_secs st len in
    In (pid, PrParam w (linked id m
          match lookup_val (vals_of (r_mods st')) id with
          | Some x => map_value powf m x
          | None => raw0
          end)) (r_probes st').
Print Assumptions linked_same_chunk.

Eval vm_compute in "THEOREM linked_clock_same_chunk"%string.
Check linked_clock_same_chunk :
  forall (T : Type) (NT : Num T) (tau : T) (sin : T -> T) (powf : T -> T -> T) (secs_to_ns : T -> Z)
         (ns_to_secs : Z -> T) (st : rstate T) (len cid id : Z) (m : mapping T) (raw0 : T)
         (tk started : bool) (ticks : Z) (frac : T),
    In (cid, {| c_speed := linked id m raw0; c_ticking := tk; c_started := started;
                c_ticks := ticks; c_frac := frac |}) (r_clocks st) ->
    let st' := process_chunk tau sin powf secs_to_ns ns_to_secs st len in
    exists c' : clock T,
      In (cid, c') (r_clocks st') /\
      c_speed c' = linked id m match lookup_val (vals_of (r_mods st')) id with
                               | Some x => map_value powf m x
                               | None => raw0
                               end.
Print Assumptions linked_clock_same_chunk.

Eval vm_compute in "THEOREM modulator_chain_lag"%string.
Check modulator_chain_lag :
  forall (T : Type) (NT : Num T) (tau : T) (sin : T -> T) (powf : T -> T -> T) (secs_to_ns : T -> Z)
         (ns_to_secs : Z -> T) (dt : T) (pre : list (Z * modulator T)) (id : Z) (m : modulator T)
         (post : list (Z * modulator T)),
    exists pre' post' : list (Z * modulator T),
      fst (process_mods tau sin powf secs_to_ns ns_to_secs dt [] (pre ++ (id, m) :: post)) =
      pre' ++ (id, mod_update tau sin powf secs_to_ns ns_to_secs dt (view pre' id post) m) :: post' /\
      map fst pre' = map fst pre /\
      map fst post' = map fst post /\
      (forall j : Z, In j (map fst pre) -> view pre' id post j = lookup_val (vals_of pre') j) /\
      (~ In id (map fst pre) -> view pre' id post id = Some n0) /\
      (forall j : Z, ~ In j (map fst pre) -> j <> id -> view pre' id post j = lookup_val (vals_of post) j).
Print Assumptions modulator_chain_lag.

Eval vm_compute in "THEOREM modulator_chain_reader_first_refuted"%string.
Check modulator_chain_reader_first_refuted :
  exists (mods : list (Z * modulator Q)) (rid mid : Z) (m : mapping Q),
    let mods' := fst (process_mods 6 half1 idp s2n n2s (1 # 4) [] mods) in
    exists x r : Q,
      lookup_val (vals_of mods') mid = Some x /\ lookup_val (vals_of mods') rid = Some r /\
      ~ r == map_value idp m x.
Print Assumptions modulator_chain_reader_first_refuted.

Eval vm_compute in "THEOREM mapping_clamps_Q"%string.
Check mapping_clamps_Q :
  forall (powf : Q -> Q -> Q) (m : mapping Q) (x : Q),
    (in_lo m < in_hi m -> map_value powf m x = map_value powf m (clamp_to (in_lo m) (in_hi m) x)) /\
    (in_hi m < in_lo m -> map_value powf m x = map_value powf m (clamp_to (in_hi m) (in_lo m) x)).
Print Assumptions mapping_clamps_Q.

Eval vm_compute in "THEOREM holds_after_removal"%string.
Check holds_after_removal :
  forall (T : Type) (NT : Num T) (tau : T) (sin : T -> T) (powf : T -> T -> T) (secs_to_ns : T -> Z)
         (ns_to_secs : Z -> T) (ibs : Z) (ops : list (op T)) (st : rstate T) (pid w id : Z)
         (m : mapping T) (raw0 : T),
    Forall (fun o : op T => ~ adds id o) ops ->
    gone id st ->
    In (pid, PrParam w (linked id m raw0)) (r_probes st) ->
    In (pid, PrParam w (linked id m raw0))
       (r_probes (fold_left (apply_op tau sin powf secs_to_ns ns_to_secs ibs) ops st)).
Print Assumptions holds_after_removal.

Eval vm_compute in "THEOREM removed_at_next_callback"%string.
Check removed_at_next_callback :
  forall (T : Type) (NT : Num T) (st : rstate T) (id : Z),
    In id (r_removed st) -> ~ In id (map fst (r_new st)) -> gone id (start_processing st).
Print Assumptions removed_at_next_callback.
