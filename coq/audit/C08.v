From Coq Require Import String.
From Coq Require Import Arith List Bool Permutation.
From KV Require Import Base.Outcome C08.Model C08.ProofsBase C08.ProofsInv C08.ProofsRun C08.ProofsProps C08.Props.
Import ListNotations.

Eval vm_compute in "THEOREM res_invariant"%string.
Check res_invariant :
  forall (cf : cfg) (sched : list label),
    exists s, run cf sched (init cf) = Ok s /\ Inv cf s /\ QInv cf s.
Print Assumptions res_invariant.

Eval vm_compute in "THEOREM res_invariant_inductive"%string.
Check res_invariant_inductive :
  forall (cf : cfg) (l : label) (s : state),
    Inv cf s -> QInv cf s ->
    exists s', step cf l s = Ok s' /\ Inv cf s' /\ QInv cf s'.
Print Assumptions res_invariant_inductive.

Eval vm_compute in "THEOREM is_full_guard_never_fires"%string.
Check is_full_guard_never_fires :
  forall cf sched s k rest,
    run cf sched (init cf) = Ok s -> st_a s = ARemoving (k :: rest) ->
    ring_is_full (unused_cap cf) (st_unused s) = false.
Print Assumptions is_full_guard_never_fires.

Eval vm_compute in "THEOREM capacity_exact"%string.
Check capacity_exact :
  forall cf sched s,
    run cf sched (init cf) = Ok s ->
    res_capacity s = cap cf /\
    res_len s = length (aorder (st_ar s)) + length (st_newq s) + length (gres (st_g s)) /\
    res_len s + st_removed s = st_created s /\
    res_len s <= cap cf /\
    (res_len s < cap cf ->
       exists k c', res_try_reserve (st_ctl s) = Ok (Reserved k c') /\
                    kidx k < cap cf /\ cfree (cs s (kidx k)) = true) /\
    (res_len s = cap cf -> res_try_reserve (st_ctl s) = Ok ArenaFull).
Print Assumptions capacity_exact.

Eval vm_compute in "THEOREM prompt_removal"%string.
Check prompt_removal :
  forall cf sched1 s1 k p sched2 s2,
    run cf sched1 (init cf) = Ok s1 ->
    st_a s1 = AIdle -> resolve s1 k = Ok (Some p) -> In p (st_marked s1) ->
    run cf sched2 s1 = Ok s2 -> st_callbacks s1 < st_callbacks s2 ->
    resolve s2 k = Ok None /\ gone s2 k.
Print Assumptions prompt_removal.

Eval vm_compute in "THEOREM prompt_removal_queued"%string.
Check prompt_removal_queued :
  forall cf sched1 s1 k p sched2 s2,
    run cf sched1 (init cf) = Ok s1 ->
    In (k, p) (st_newq s1) -> In p (st_marked s1) ->
    run cf sched2 s1 = Ok s2 ->
    (st_callbacks s1 + 1 <= st_callbacks s2 -> resolve s2 k = Ok (Some p) \/ gone s2 k) /\
    (st_callbacks s1 + 2 <= st_callbacks s2 -> resolve s2 k = Ok None /\ gone s2 k).
Print Assumptions prompt_removal_queued.

Eval vm_compute in "THEOREM destroyed_on_caller"%string.
Check destroyed_on_caller :
  forall cf sched s,
    run cf sched (init cf) = Ok s ->
    (forall p t, In (p, t) (st_destroyed s) -> t = Gameplay) /\
    NoDup (map fst (st_destroyed s)) /\
    Permutation (seq 0 (st_next s))
                (map snd (st_newq s) ++ slot_payloads (aslots (st_ar s))
                     ++ (st_unused s ++ infl (st_inflight s)) ++ map fst (st_destroyed s)) /\
    (forall l s', thread_of l = Audio -> step cf l s = Ok s' ->
                  st_destroyed s' = st_destroyed s /\ st_next s' = st_next s).
Print Assumptions destroyed_on_caller.

Eval vm_compute in "THEOREM no_stale_ids"%string.
Check no_stale_ids :
  forall cf sched s,
    run cf sched (init cf) = Ok s ->
    (forall k p, resolve s k = Ok (Some p) -> In (p, k) (st_log s)) /\
    (forall p p' k, In (p, k) (st_log s) -> In (p', k) (st_log s) -> p = p') /\
    (forall k, kidx k < cap cf -> gone s k ->
               forall sched2 s2, run cf sched2 s = Ok s2 -> resolve s2 k = Ok None /\ gone s2 k) /\
    (forall k p, In (p, k) (st_log s) -> resolve s k = Ok None -> ~ In (k, p) (st_newq s) -> gone s k) /\
    (forall k c', res_try_reserve (st_ctl s) = Ok (Reserved k c') -> forall p, ~ In (p, k) (st_log s)).
Print Assumptions no_stale_ids.

Eval vm_compute in "THEOREM example_present"%string.
Check example_present :
  exists s1, run ex_cf ex_sched_present (init ex_cf) = Ok s1 /\ st_a s1 = AIdle /\
             resolve s1 (mkKey 0 0) = Ok (Some 0) /\ In 0 (st_marked s1).
Print Assumptions example_present.

Eval vm_compute in "THEOREM example_queued"%string.
Check example_queued :
  exists s1, run ex_cf ex_sched_queued (init ex_cf) = Ok s1 /\
             In (mkKey 0 0, 0) (st_newq s1) /\ In 0 (st_marked s1).
Print Assumptions example_queued.

Eval vm_compute in "THEOREM example_reuse"%string.
Check example_reuse :
  exists s, run ex_cf ex_sched_reuse (init ex_cf) = Ok s /\
            gone s (mkKey 0 0) /\ resolve s (mkKey 0 0) = Ok None /\
            resolve s (mkKey 0 1) = Ok (Some 2) /\ resolve s (mkKey 1 0) = Ok (Some 1) /\
            st_destroyed s = [(0, Gameplay)] /\ res_len s = 2 /\
            res_try_reserve (st_ctl s) = Ok ArenaFull.
Print Assumptions example_reuse.

Eval vm_compute in "THEOREM f27_regression"%string.
Check f27_regression :
  forall sr pb : bool,
    let cf := mkCfg sr pb 1 in
    exists s1 s2,
      run cf f27_prefix (init cf) = Ok s1 /\ st_a s1 = AIdle /\
      resolve s1 (mkKey 0 1) = Ok (Some 1) /\ In 1 (st_marked s1) /\ st_unused s1 = [0] /\
      run cf f27_callback s1 = Ok s2 /\
      st_callbacks s1 < st_callbacks s2 /\ st_a s2 = AIdle /\
      resolve s2 (mkKey 0 1) = Ok None /\ st_unused s2 = [0; 1] /\ st_destroyed s2 = [] /\
      res_len s2 = 0.
Print Assumptions f27_regression.

Eval vm_compute in "THEOREM capacity_zero_regression"%string.
Check capacity_zero_regression :
  forall sr pb : bool,
    let cf := mkCfg sr pb 0 in
    res_try_reserve (st_ctl (init cf)) = Ok ArenaFull /\
    exists s, run cf [G_reserve; G_drain_done; G_push; A_start; A_remove; A_add; A_add] (init cf) = Ok s /\
              st_g s = GIdle /\ res_len s = 0 /\ st_created s = 0 /\
              st_destroyed s = (if pb then [(0, Gameplay)] else []).
Print Assumptions capacity_zero_regression.
