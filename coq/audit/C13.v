From Coq Require Import String.
From Coq Require Import ZArith List Bool Reals.
From Flocq Require Import Core IEEE754.BinarySingleNaN.
From KV Require Import Base.IEEE Base.Outcome C13.ModelOps C13.ModelEffects C13.ModelDelay C13.ModelTree
     C13.ProofsSeq C13.ProofsLaws C13.ProofsInst C13.ProofsB32 C13.ProofsLinear C13.Props.
Import ListNotations.
Open Scope ops_scope.

Eval vm_compute in "THEOREM effects_chunk_free_any"%string.
Check effects_chunk_free_any :
  forall (F : Type) (OPS : Ops F) (K : consts F) (T : nat) (e : effect F) (s : estate F) (xs : list (frame F)),
    wf e s = true -> length xs <= T ->
    process K T e s xs = Ok (run_frames (estep K e) s xs).
Print Assumptions effects_chunk_free_any.

Eval vm_compute in "THEOREM effects_partition_independent_any"%string.
Check effects_partition_independent_any :
  forall (F : Type) (OPS : Ops F) (K : consts F) (T : nat) (e : effect F) (s : estate F)
         (sl1 sl2 : list (list (frame F))),
    wf e s = true ->
    Forall (fun sl => length sl <= T) sl1 -> Forall (fun sl => length sl <= T) sl2 ->
    concat sl1 = concat sl2 ->
    process_slices K T e s sl1 = process_slices K T e s sl2.
Print Assumptions effects_partition_independent_any.

Eval vm_compute in "THEOREM effects_slices_are_recurrence_any"%string.
Check effects_slices_are_recurrence_any :
  forall (F : Type) (OPS : Ops F) (K : consts F) (T : nat) (e : effect F) (slices : list (list (frame F))) (s : estate F),
    wf e s = true -> Forall (fun sl => length sl <= T) slices ->
    process_slices K T e s slices = Ok (run_frames (estep K e) s (concat slices)).
Print Assumptions effects_slices_are_recurrence_any.

Eval vm_compute in "THEOREM effects_process_seq_any"%string.
Check effects_process_seq_any :
  forall (F : Type) (OPS : Ops F) (K : consts F) (T : nat) (e : effect F) (s : estate F) (xs ys : list (frame F)),
    wf e s = true -> length xs <= T -> length ys <= T -> length (xs ++ ys) <= T ->
    process K T e s (xs ++ ys) =
    (let! (s1, o1) := process K T e s xs in
     let! (s2, o2) := process K T e s1 ys in Ok (s2, o1 ++ o2)).
Print Assumptions effects_process_seq_any.

Eval vm_compute in "THEOREM effects_wf_preserved_any"%string.
Check effects_wf_preserved_any :
  forall (F : Type) (OPS : Ops F) (K : consts F) (e : effect F) (xs : list (frame F)) (s : estate F),
    wf e s = true -> wf e (fst (run_frames (estep K e) s xs)) = true.
Print Assumptions effects_wf_preserved_any.

Eval vm_compute in "THEOREM effects_never_panic_any"%string.
Check effects_never_panic_any :
  forall (F : Type) (OPS : Ops F) (K : consts F) (T : nat) (e : effect F) (slices : list (list (frame F))),
    buffers_ok e = true -> Forall (fun sl => length sl <= T) slices ->
    process_slices K T e (init e) slices = Ok (run_frames (estep K e) (init e) (concat slices)).
Print Assumptions effects_never_panic_any.

Eval vm_compute in "THEOREM delay_chunked_is_recurrence_any"%string.
Check delay_chunked_is_recurrence_any :
  forall (F : Type) (OPS : Ops F) (S : Type)
         (fxproc : S -> list (frame F) -> outcome (S * list (frame F))) (T : nat) (g mix : F)
         (fxstep : S -> frame F -> S * frame F) (Inv : S -> Prop),
    (forall s ys, Inv s -> length ys <= T -> fxproc s ys = Ok (run_frames fxstep s ys)) ->
    (forall s y, Inv s -> Inv (fst (fxstep s y))) ->
    forall (xs buf : list (frame F)) (s : S),
      1 <= length buf -> Inv s -> length xs <= T ->
      delay_process S fxproc T g mix buf s xs =
      Ok (flat3 S (run_frames (delay_step S g mix fxstep) (buf, s) xs)).
Print Assumptions delay_chunked_is_recurrence_any.

Eval vm_compute in "THEOREM delay_empty_line_panics_any"%string.
Check delay_empty_line_panics_any :
  forall (F : Type) (OPS : Ops F) (S : Type)
         (fxproc : S -> list (frame F) -> outcome (S * list (frame F))) (T : nat) (g mix : F) (s : S) (xs : list (frame F)),
    delay_process S fxproc T g mix [] s xs = Panic ChunkSizeZero.
Print Assumptions delay_empty_line_panics_any.

Eval vm_compute in "THEOREM silence_in_silence_out_R"%string.
Check silence_in_silence_out_R :
  forall (e : effect R) (xs : list (frame R)) (s : estate R),
    sil_ok consts_R ZrR FinR e -> cleared ZrR s -> Forall (Zf ZrR) xs ->
    cleared ZrR (fst (run_frames (estep consts_R e) s xs)) /\
    Forall (Zf ZrR) (snd (run_frames (estep consts_R e) s xs)).
Print Assumptions silence_in_silence_out_R.

Eval vm_compute in "THEOREM silence_in_silence_out_b32"%string.
Check silence_in_silence_out_b32 :
  forall (e : effect f32) (xs : list (frame f32)) (s : estate f32),
    sil_ok consts_f32 Zr32 Fin32 e -> cleared Zr32 s -> Forall (Zf Zr32) xs ->
    cleared Zr32 (fst (run_frames (estep consts_f32 e) s xs)) /\
    Forall (Zf Zr32) (snd (run_frames (estep consts_f32 e) s xs)).
Print Assumptions silence_in_silence_out_b32.

Eval vm_compute in "THEOREM init_is_cleared_R"%string.
Check init_is_cleared_R :
  forall e : effect R, cleared ZrR (init e).
Print Assumptions init_is_cleared_R.

Eval vm_compute in "THEOREM init_is_cleared_b32"%string.
Check init_is_cleared_b32 :
  forall e : effect f32, cleared Zr32 (init e).
Print Assumptions init_is_cleared_b32.

Eval vm_compute in "THEOREM compressor_silence_condition_R"%string.
Check compressor_silence_condition_R :
  forall (lg pw : R -> R) (thr ratio sa sr mk : R),
    (20 * lg (Rabs 0) <= thr)%R -> comp_ok ZrR FinR lg pw thr ratio sa sr mk.
Print Assumptions compressor_silence_condition_R.

Eval vm_compute in "THEOREM compressor_silence_ratio0_refuted"%string.
Check compressor_silence_ratio0_refuted :
  exists (e : effect f32),
    e = ECompressor lg_w pw_w (oZ 0) (oZ 0) (f32_of_bits 0x3F7FF000) (f32_of_bits 0x3F7FFF00) (oZ 0) (oZ 1) /\
    snd (estep consts_f32 e (init e) fr_zero) = (B754_nan, B754_nan).
Print Assumptions compressor_silence_ratio0_refuted.

Eval vm_compute in "THEOREM dry_identity_R"%string.
Check dry_identity_R :
  forall (e : effect R) (s : estate R) (xs : list (frame R)),
    dry e -> snd (run_frames (estep consts_R e) s xs) = xs.
Print Assumptions dry_identity_R.

Eval vm_compute in "THEOREM volume_0dB_identity_R"%string.
Check volume_0dB_identity_R :
  forall (pw : R -> R) (s : estate R) (xs : list (frame R)),
    snd (run_frames (estep consts_R (EVolume (db_amp pw (eff 0%R)))) s xs) = xs.
Print Assumptions volume_0dB_identity_R.

Eval vm_compute in "THEOREM centre_pan_identity_any"%string.
Check centre_pan_identity_any :
  forall (F : Type) (OPS : Ops F) (K : consts F) (p : F) (s : estate F) (xs : list (frame F)),
    oeqb p (oZ 0) = true -> snd (run_frames (estep K (EPanning p)) s xs) = xs.
Print Assumptions centre_pan_identity_any.

Eval vm_compute in "THEOREM eq_0dB_coefficients_R"%string.
Check eq_0dB_coefficients_R :
  forall (cpi c1e4 chalf cminq : R) (tan pow10 : R -> R) (kind : eqkind) (frequency q dt : R),
    pow10 0%R = 1%R ->
    snd (eq_coeffs cpi c1e4 chalf cminq tan pow10 kind frequency q 0%R dt) = (1%R, 0%R, 0%R).
Print Assumptions eq_0dB_coefficients_R.

Eval vm_compute in "THEOREM eq_0dB_identity_R"%string.
Check eq_0dB_identity_R :
  forall (a1 a2 a3 : R) (s : estate R) (xs : list (frame R)),
    snd (run_frames (estep consts_R (EEq a1 a2 a3 1%R 0%R 0%R)) s xs) = xs.
Print Assumptions eq_0dB_identity_R.

Eval vm_compute in "THEOREM hardclip_0dB_identity_R"%string.
Check hardclip_0dB_identity_R :
  forall (mix : R) (s : estate R) (xs : list (frame R)),
    mix = 1%R \/ mix = 0%R ->
    Forall (fun x : frame R => (Rabs (fst x) <= 1 /\ Rabs (snd x) <= 1)%R) xs ->
    snd (run_frames (estep consts_R (EDistortion true 1%R mix)) s xs) = xs.
Print Assumptions hardclip_0dB_identity_R.

Eval vm_compute in "THEOREM distortion_zero_drive_any"%string.
Check distortion_zero_drive_any :
  forall (F : Type) (OPS : Ops F) (hard : bool) (drive mix : F) (x : frame F),
    oeqb drive (oZ 0) = true -> distortion_step hard drive mix x = blend x x mix.
Print Assumptions distortion_zero_drive_any.

Eval vm_compute in "THEOREM linear_R"%string.
Check linear_R :
  forall (a b : R) (e : effect R) (xs ys : list (frame R)),
    linear e -> length xs = length ys ->
    out e (lcomb a b xs ys) = lcomb a b (out e xs) (out e ys).
Print Assumptions linear_R.

Eval vm_compute in "THEOREM linear_step_R"%string.
Check linear_step_R :
  forall (a b : R) (e : effect R) (s1 s2 s3 : estate R) (x1 x2 x3 : frame R),
    linear e -> lin3 a b s1 s2 s3 -> lcf a b x1 x2 x3 ->
    lin3 a b (fst (estep consts_R e s1 x1)) (fst (estep consts_R e s2 x2)) (fst (estep consts_R e s3 x3)) /\
    lcf a b (snd (estep consts_R e s1 x1)) (snd (estep consts_R e s2 x2)) (snd (estep consts_R e s3 x3)).
Print Assumptions linear_step_R.

Eval vm_compute in "THEOREM superposition_R"%string.
Check superposition_R :
  forall (e : effect R) (xs ys : list (frame R)),
    linear e -> length xs = length ys ->
    out e (lcomb 1 1 xs ys) = lcomb 1 1 (out e xs) (out e ys).
Print Assumptions superposition_R.

Eval vm_compute in "THEOREM scaling_R"%string.
Check scaling_R :
  forall (a : R) (e : effect R) (xs : list (frame R)),
    linear e -> out e (lcomb a 0 xs xs) = lcomb a 0 (out e xs) (out e xs).
Print Assumptions scaling_R.

Eval vm_compute in "THEOREM interp_fixed_t_irrelevant_b32"%string.
Check interp_fixed_t_irrelevant_b32 :
  forall a t : f32, is_finite t = true -> Bsign t = false -> interp a a t = eff a.
Print Assumptions interp_fixed_t_irrelevant_b32.

Eval vm_compute in "THEOREM interp_fixed_t_irrelevant_b64"%string.
Check interp_fixed_t_irrelevant_b64 :
  forall a t : f64, is_finite t = true -> Bsign t = false -> interp a a t = eff a.
Print Assumptions interp_fixed_t_irrelevant_b64.

Eval vm_compute in "THEOREM dry_identity_b32"%string.
Check dry_identity_b32 :
  forall (wet x : frame f32) (mix : f32),
    (mix = B754_zero false \/ mix = B754_zero true) ->
    is_finite (fst wet) = true -> is_finite (snd wet) = true ->
    is_finite (fst x) = true -> is_finite (snd x) = true ->
    same_value (fst (blend wet x mix)) (fst x) /\ same_value (snd (blend wet x mix)) (snd x).
Print Assumptions dry_identity_b32.

Eval vm_compute in "THEOREM dry_identity_nan_wet_b32_refuted"%string.
Check dry_identity_nan_wet_b32_refuted :
  exists (wet x : frame f32), x = (Z32 1, Z32 1) /\ blend wet x (Z32 0) = (B754_nan, B754_nan).
Print Assumptions dry_identity_nan_wet_b32_refuted.

Eval vm_compute in "THEOREM volume_0dB_identity_b32"%string.
Check volume_0dB_identity_b32 :
  forall (pw : f32 -> f32) (db : f32) (x : frame f32),
    (db = B754_zero false \/ db = B754_zero true) ->
    is_finite (fst x) = true -> is_finite (snd x) = true ->
    volume_step (db_amp pw (eff db)) x = x.
Print Assumptions volume_0dB_identity_b32.
