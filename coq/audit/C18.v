From Coq Require Import String.
From Coq Require Import ZArith List Bool Reals.
From Flocq Require Import Core IEEE754.BinarySingleNaN.
From KV Require Import Base.IEEE Base.Outcome C18.Model C18.ProofsWav C18.ProofsSched C18.ProofsConv C18.Props.
Import ListNotations.
Local Open Scope Z_scope.

Eval vm_compute in "THEOREM wav_roundtrip"%string.
Check wav_roundtrip :
  forall (sp : spec) (frames : list (list Z)),
    spec_ok sp -> Forall (frame_ok sp) frames -> size_ok sp frames ->
    decode (encode sp frames) = Some (sp, frames).
Print Assumptions wav_roundtrip.

Eval vm_compute in "THEOREM static_load_spec"%string.
Check static_load_spec :
  forall (sp : spec) (frames : list (list Z)),
    spec_ok sp -> s_channels sp <= 26 -> 0 < s_rate sp ->
    Forall (frame_ok sp) frames -> size_ok sp frames ->
    sym_load (encode sp frames) =
    match frames with
    | [] => LOk (s_rate sp) []
    | _ => match spec_frames sp frames with
           | Some frs => LOk (s_rate sp) frs
           | None => LErrChannels
           end
    end.
Print Assumptions static_load_spec.

Eval vm_compute in "THEOREM spec_frames_mono_dup"%string.
Check spec_frames_mono_dup :
  forall (sp : spec) (frames : list (list Z)),
    s_channels sp = 1 -> Forall (frame_ok sp) frames ->
    spec_frames sp frames = Some (map (fun fr => let m := conv (s_fmt sp) (hd 0 fr) in (m, m)) frames).
Print Assumptions spec_frames_mono_dup.

Eval vm_compute in "THEOREM spec_frames_stereo_pair"%string.
Check spec_frames_stereo_pair :
  forall (sp : spec) (frames : list (list Z)),
    s_channels sp = 2 -> Forall (frame_ok sp) frames ->
    spec_frames sp frames =
    Some (map (fun fr => (conv (s_fmt sp) (nth 0 fr 0), conv (s_fmt sp) (nth 1 fr 0))) frames).
Print Assumptions spec_frames_stereo_pair.

Eval vm_compute in "THEOREM spec_frames_multichannel_error"%string.
Check spec_frames_multichannel_error :
  forall (sp : spec) (frames : list (list Z)),
    3 <= s_channels sp -> Forall (frame_ok sp) frames -> frames <> [] -> spec_frames sp frames = None.
Print Assumptions spec_frames_multichannel_error.

Eval vm_compute in "THEOREM truncation_prefix"%string.
Check truncation_prefix :
  forall (sp : spec) (frames : list (list Z)) (j : nat) (frs : list (f32 * f32)),
    spec_ok sp -> s_channels sp <= 2 -> 0 < s_rate sp ->
    Forall (frame_ok sp) frames -> size_ok sp frames ->
    spec_frames sp frames = Some frs ->
    exists k, sym_load (firstn (44 + j) (encode sp frames)) = LOk (s_rate sp) (firstn k frs).
Print Assumptions truncation_prefix.

Eval vm_compute in "THEOREM truncated_header_error"%string.
Check truncated_header_error :
  forall (sp : spec) (frames : list (list Z)) (k : nat),
    (4 <= k < 44)%nat -> sym_load (firstn k (encode sp frames)) = LErr.
Print Assumptions truncated_header_error.

Eval vm_compute in "THEOREM frame_at_index_correct"%string.
Check frame_at_index_correct :
  forall (F : Type) (zero : F) (audio : list F) (psize land : nat -> nat)
         (fuel start : nat) (ops : list op),
    (length audio <= fuel)%nat ->
    run_ops zero audio psize land fuel (length audio) (sched_new land start) ops =
    Ok (map (fun i => Some (nth i audio zero)) (requested ops)).
Print Assumptions frame_at_index_correct.

Eval vm_compute in "THEOREM streaming_equals_static"%string.
Check streaming_equals_static :
  forall (F : Type) (zero : F) (audio : list F) (psize land : nat -> nat)
         (fuel start : nat) (ops : list sop),
    (length audio <= fuel)%nat ->
    run_stream zero audio psize land fuel (length audio) (sched_new land start) start ops =
    Ok (map (fun p => (Some (nth p audio zero), p)) (positions (length audio) start ops)).
Print Assumptions streaming_equals_static.

Eval vm_compute in "THEOREM conv_exact"%string.
Check conv_exact :
  forall (f : sfmt) (x : Z), exact_fmt f -> sample_ok f x ->
    is_finite (conv f x) = true /\ B2R (conv f x) = value_of f x.
Print Assumptions conv_exact.

Eval vm_compute in "THEOREM conv_in_unit_interval"%string.
Check conv_in_unit_interval :
  forall (f : sfmt) (x : Z), exact_fmt f -> sample_ok f x ->
    le32 (Z32 (-1)) (conv f x) = true /\ lt32 (conv f x) (Z32 1) = true.
Print Assumptions conv_in_unit_interval.

Eval vm_compute in "THEOREM conv_monotone"%string.
Check conv_monotone :
  forall (f : sfmt) (x y : Z), exact_fmt f -> sample_ok f x -> sample_ok f y ->
    (x < y)%Z -> lt32 (conv f x) (conv f y) = true.
Print Assumptions conv_monotone.

Eval vm_compute in "THEOREM conv_injective"%string.
Check conv_injective :
  forall (f : sfmt) (x y : Z), exact_fmt f -> sample_ok f x -> sample_ok f y ->
    conv f x = conv f y -> x = y.
Print Assumptions conv_injective.

