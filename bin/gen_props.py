#!/usr/bin/env python3
"""gen_props.py Cxx header_file lemma1[=thmname] ... : write theories/Cxx/Props.v whose theorems restate
(with the type Coq prints for them) and `exact` the given lemmas.  One-off helper; the result is
committed and then pinned by audit/Cxx.v."""
import re, subprocess, sys
prop, header = sys.argv[1], open(sys.argv[2]).read()
pairs = [a.split("=") if "=" in a else [a, a] for a in sys.argv[3:]]
tmp = "/tmp/gen_props_tmp.v"
open(tmp, "w").write(header + "\nSet Printing Width 110.\nSet Printing Depth 100000.\n" + "".join(f'Check @{l}.\n' for l, _ in pairs))
r = subprocess.run(["coqc", "-Q", "/verif/coq/theories", "KV", tmp], capture_output=True, text=True)
if r.returncode != 0:
    print(r.stdout[-2000:], r.stderr[-3000:]); sys.exit(1)
out = r.stdout
# split at lines starting with '@lemma' or 'lemma'
chunks = re.split(r"^@?([\w']+)\s*\n\s+:\s", out, flags=re.M)
types = {}
for i in range(1, len(chunks), 2):
    types[chunks[i]] = chunks[i + 1].strip()
body = [f"(** {prop} — property theorems: statements (as printed by Coq) closed by [exact]. *)", header.strip(), ""]
for l, t in pairs:
    ty = types[l]
    body.append(f"Theorem {t} :\n  {ty}.\nProof. exact @{l}. Qed.\n")
open(f"/verif/coq/theories/{prop}/Props.v", "w").write("\n".join(body))
print("wrote", len(pairs), "theorems")
