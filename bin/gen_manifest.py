#!/usr/bin/env python3
"""Writes MANIFEST.json from the table below (kept in one place so it stays valid)."""
import json

CLAIMED = {
    "C19": {
        "text": "Coq theorems over the exact (rational) instance of the clock-time / unit model: add/sub exactness, fraction in [0,1), saturation at zero, add-sub round trip, ordering = ticks+fraction, for all inputs; the binary64/binary32 (Flocq) instance of the same Gallina terms is compared bit-for-bit with kira on generated and boundary arguments every run, and the property predicates are monitored on the implementation's results. Partial: libm (powf) is an oracle; float rounding gap between the exact theorems and binary64 is measured, not proved.",
        "design_ref": "DESIGN.md section 5 C19",
        "technique": "Coq proof over Q of a Num-generic model + bit-exact Flocq/vm_compute correspondence with the Rust code",
    },
}
CLAIMED["C06"] = {
    "text": "Coq theorems (closed under the global context) over the exact rational instance of a statement-by-statement model of kira::Parameter / Tween / StartTime: the tween law for every partition of time into updates, every easing and start time (value = start + (target-start)*ease(elapsed/duration) until complete, identically the target from then on), partition independence, range, pending-start, zero duration, delayed count-down, continuity across updates, retargeting from the current value, modulator follow/hold. The binary64 / binary32 (Flocq) instance of the same Gallina terms is compared bit-for-bit with the real Parameter<f64>/Parameter<Decibels> on generated set/update histories (incl. Duration::from_secs_f64 rounding) every run; law monitors run on the implementation.",
    "design_ref": "DESIGN.md section 5 C06",
    "technique": "Coq proof (induction over update lists) on a Num-generic model + bit-exact Flocq/vm_compute correspondence",
}
CLAIMED["C03"] = {
    "text": "Coq theorems over the exact instance of a statement-by-statement model of PlaybackStateManager, StartTime::update and the shell shared by StaticSound/StreamingSound::process: Stopped is absorbing under every command, update and process call (silent, frozen); silence and frozen position whenever a call ends Paused / WaitingToResume or the start time is pending; pause/stop/resume become Paused/Stopped/Playing exactly at the update at which the fade tween completes (C06 law), at exactly silence / unity, with the gain monotone in between; resume_at waits, resumes or is cancelled per clock state; the handle mirror always equals the manager state; a finite non-looping sound reaches Stopped after exactly n-start+1 rendered frames for EVERY chunking (closed form by induction), a looping one never. The binary64/binary32 Flocq instance is compared bit-for-bit with a real static sound (state, position, finished, every output sample) on generated command histories; life-cycle monitors and unload-at-next-callback run on the implementation. Partial: streaming sound shares the shell but is driven only in C09/C10; libm powf facts come from a cfg hook log.",
    "design_ref": "DESIGN.md section 5 C03",
    "technique": "Coq proof (invariants + induction over update/chunk lists) + bit-exact Flocq/vm_compute correspondence",
}
CLAIMED["C17"] = {
    "text": "Coq theorems (Q instance; two binary64 facts via Flocq) about models of Lfo::update (rem_euclid phase), Waveform::value, the tweener modulator, Modulators::process (for_each with dummy swap, key order), Renderer::process_chunk order and Value::FromModulator/Mapping: waveform and LFO value ranges for any phase/frequency sign, phase = frac(phase0 + f t) for every partition, tweener law, once-per-chunk call log, same-chunk rule for mixer/clock readers, exact modulator->modulator chain-lag rule, mapping clamps, hold after removal. Bit-exact binary64 correspondence through a real AudioManager with probe effects/modulators on generated histories; monitors for every clause. Known finding F23 (reader updated before the modulator it reads lags one chunk).",
    "design_ref": "DESIGN.md section 5 C17",
    "technique": "Coq proof on a Num-generic model + bit-exact Flocq/vm_compute correspondence",
}
CLAIMED["C07"] = {
    "text": "Coq theorems, closed under the global context. (1) For ALL schedules of a writer thread and an audio thread over a step-level model of triple_buffer 8.1 as kira::command uses it (two-half fills so tearing is expressible): slot ownership, no torn value, publication numbers strictly increasing (exactly once, last write wins, nothing late), quiescent delivery, callback semantics, first-callback delivery, decoder-side kinds. (2) For ALL histories of a resource with any set of command kinds whose read_commands reads every reader once in a fixed order: the state is the composition, in code order, of the per-kind effects of the last command of each interval; a command is applied in the next callback iff it is the last of its kind, never later, never twice; readers are empty after every callback; each kind behaves as if alone; the pause/resume/stop table on C03's state manager; else-if and guarded-drain readings refuted with witnesses. Correspondence: all 2^12 / 3^7 whole-call sequences on the real crate; all 63 command kinds found by grepping /repo exercised through real handles; cross-kind pairs/triples and random histories in ten contexts (paused tracks and sounds, fresh resources, static and streaming) against model, Rust mirror, split twin and absolute probes (11.9 k cases); two-thread stress. Partial: sequential consistency assumed; interleavings inside triple_buffer on real threads only sampled.",
    "design_ref": "DESIGN.md section 5 C07",
    "technique": "Coq proof (inductive invariant over all interleavings) + correspondence of the protocol model with the real crate and handles",
}
CLAIMED["C15"] = {
    "text": "Coq theorems over R (stdlib real axioms) about a model of SpatialData::spatialize written once over abstract scalars and reproducing glam 0.30's operation order: level = attenuation(distance) x per-ear gains; attenuation is a function of distance only, 1 within min, exactly 0 from max on, non-increasing for every monotone easing (libm monotonicity as a named hypothesis), total for empty/inverted ranges (F11 repaired); ear gains in [1-s, 1]; strength 0 passes the frame unpanned; side preference at or beyond the ear plane; mirror swap; full rigid-motion invariance; no listener => exact silence; distance-mapped parameters follow the distance; no division by zero at coincident points. The binary32 instance is compared bit-for-bit with a real AudioManager on generated positions/orientations/ranges/strengths/tweens/listener histories; relational monitors on the implementation. Known finding F22 (emitter inside the head). Partial: finiteness over all of binary32 by examples and monitors only; orientation slerp treated as observed input.",
    "design_ref": "DESIGN.md section 5 C15",
    "technique": "Coq proof over R of a scalar-generic model + bit-exact Flocq/vm_compute correspondence",
}

CLAIMED["C02"] = {
    "text": "Coq theorems over an abstract operations bundle (no algebraic law assumed about frame arithmetic, sounds, effects or track control: bit-for-bit for binary32): the buffer-level model of Mixer/Track/SendTrack::process (shared temp buffers, slices, zip-truncated +=, fill(ZERO), send inputs, arena order) REFINES the recursive signal-flow specification for every tree, every chunk list and every history of callbacks interleaved with edits, and leaves every buffer zero again (nothing carries over between tracks, chunks or callbacks; a removed/paused/unrouted branch contributes exact zeros); sends are post-fader; every sound and effect on an advancing path is asked for each frame exactly once, in order, in slices of 1..b; closed form of the documented sum over any commutative semiring and over R. Correspondence: random track trees/sends/probe sounds/probe effects/pause and removal histories rendered by a real AudioManager, device buffer and call log of every probe compared with the model (dyadic probe values, so all float operations are exact). Partial: built-in effects and real sounds enter as abstract frame transducers (their own laws are C04/C13). Pick-up order: for every interleaving of the caller with the storage drains of on_start_processing (users drained before what they refer to) every live resource finds what it refers to when process runs (theorem over a schedule model; reversed order refuted); replayed on the real manager through hook effects that run the caller's part in the middle of on_start_processing.",
    "design_ref": "DESIGN.md section 5 C02",
    "technique": "Coq proof (refinement of a buffer-level model to a signal-flow spec, induction over trees and histories) + correspondence through a real AudioManager",
}
CLAIMED["C04"] = {
    "text": "Coq theorems about statement-level models of Transport, Resampler, StaticSoundData slicing and StaticSound::process: no panic/hang for ANY start, loop region (empty/inverted ignored: F6 repaired), slice (F9 repaired), reverse start (F10 repaired) and history of increments/decrements/seeks/loop changes; reads only inside the slice; exact played sequence forwards/backwards with loop end -> loop start; stops exactly after the last frame; one position update per output frame at unit increment and bit-exact reproduction in binary32 (sign of zero caveat proved); Hermite polynomial identities over Q; the resampling law (position + fraction accumulates increments exactly, floor(fraction+inc) updates) ; position() names the frame heard. Known findings proved as theorems with witnesses: F19 seek_by measured three frames ahead, F20 non-unit sr*(1/sr) for e.g. 49 Hz (all standard rates proved unit), F24 seek in the last three frames ignored. Correspondence: bit-exact binary32/binary64 comparison of every output sample, state and position of real static sounds over generated slices/loops/rates/chunkings/command schedules.",
    "design_ref": "DESIGN.md section 5 C04",
    "technique": "Coq proof (invariants + induction over operation lists; Q and Flocq binary32 instances) + bit-exact Flocq/vm_compute correspondence",
}
CLAIMED["C05"] = {
    "text": "Coq theorems about models of Clock::update / Clocks::process (for_each with own-slot dummy), ClockSpeed, Info::when_to_start, the renderer's chunk order and the two-word ClockShared: exact time = old + speed x elapsed for EVERY partition into callbacks/chunks (Q), partition independence, varying speed via the C06 law, pause freezes (any number type), stop resets, speed change when due, event-buffer rule for every chunk history (waits while paused or short of tau, begins in the first buffer whose clock update reaches tau, at most one buffer early, never late, cancelled when the clock no longer resolves); for ALL schedules of reader vs audio thread no word is out of thin air and non-overlapping reads are atomic and monotone. Known findings proved with witnesses and replayed through cfg yield hooks: F7 tick loop diverges (SecondsPerTick(0)), F16 torn two-word read, F17 speed tween on the clock's own time never starts. Correspondence: bit-exact clock times/ticking and waiter begin frames on a real AudioManager over generated histories. Partial: modulator-linked speeds and streaming waiters not driven.",
    "design_ref": "DESIGN.md section 5 C05",
    "technique": "Coq proof (induction over update/chunk lists; all-schedule invariant for the shared words) + bit-exact correspondence incl. hook-driven interleavings",
}
CLAIMED["C08"] = {
    "text": "Coq theorems, closed under the global context, over a step-level model of ResourceController/ResourceStorage/SelfReferentialResourceStorage + atomic-arena + the new/unused rings, for EVERY capacity (0 included), both storage variants and EVERY interleaving of gameplay-thread and audio-thread atomic steps: an inductive invariant (no panic reachable; alive+queued+reserved <= capacity; unused ring never full; free list exact; generations agree; each payload in exactly one place); exact capacity accounting and limit error iff count = capacity; prompt removal at the next callback (the one after if still queued); payloads destroyed only on the caller's thread, at most once; no stale ids (a reused slot carries a larger generation). F2 (capacity 0) and F27 (unused-ring overflow race) were found by these proofs, repaired by fix commits and are pinned as regressions. Correspondence: generated create/mark/callback histories on all eight storages of a real AudioManager incl. hook-driven interleavings at the removal/push window, plus a two-thread stress with monitors. Failed creations are part of every schedule: a creation failing BEFORE the reservation (into_sound error) changes nothing and is erasable from any history; a failure AFTER the reservation leaks exactly one slot (leak_accounting, reserve_then_fail_refuted; call-site table in Model.v); harness: failing SoundData / decoders / panicking builders on 12 storage kinds, stale ids through Parameter and when_to_start.",
    "design_ref": "DESIGN.md section 5 C08",
    "technique": "Coq proof (inductive invariant over all interleavings of a step-level model) + correspondence with the real storages (hook-driven schedules)",
}
CLAIMED["C10"] = {
    "text": "Coq theorems, closed under the global context, over a step model of DecodeScheduler::run / StreamingSound and its rtrb rings for all schedules: the decoder thread ends at its next wake-up once the sound is Stopped, finished, failed, rejected or abandoned (F12, F13 repaired and pinned), only for one of those reasons; each step sleeps, makes progress or ends (no busy spin); an error at ANY decode call k stops the sound, unloads it and the FIRST error is what pop_error returns; a slow decoder yields whole silent, frozen chunks and nothing is lost or repeated between chunks. Known findings proved with witnesses: F31 thread lingers while its sound sits in an unused-resource queue, F32 an underrun in mid-chunk skips frames. Correspondence: scripted decoders (packet sizes, errors at chosen calls, slowness) behind real StreamingSoundData on a real AudioManager; thread end observed through decoder Drop and a live-thread counter; decode-call rate monitor. Partial: wall-clock bounds are measured, not proved.",
    "design_ref": "DESIGN.md section 5 C10",
    "technique": "Coq proof (step-level liveness/safety over all schedules) + correspondence with scripted decoders on real threads",
}
CLAIMED["C11"] = {
    "text": "Coq theorems, closed under the global context, over the C02 buffer-level renderer model with NO law assumed about float arithmetic: if every sound and effect is a frame-sequential transducer (discharged for kira's by C04/C13) and parameters are steady, any two (internal buffer size, callback partition) configurations with the same total render the same device samples and final state; the whole mixer is itself frame-sequential; remainder chunks use only a prefix of every buffer; Renderer::process splits n frames into chunks of 1..b summing to n. Correspondence: probe scenes and real scenes (static sounds, tracks, sends, built-in effects) rendered by a real AudioManager under 4-8 configurations (b=1, b=4096, one-frame callbacks, non-multiples) and compared bit-for-bit with each other and with the model. Partial: recursive effects compared bit-for-bit on the implementation (stronger than 1e-6) but their sequentiality in binary32 is proved in C13 only for the modelled effects.",
    "design_ref": "DESIGN.md section 5 C11",
    "technique": "Coq proof (partition independence by induction over chunk lists of the buffer-level model) + bit-exact rendering-vs-rendering and model correspondence",
}
CLAIMED["C12"] = {
    "text": "Coq theorems, closed under the global context, over a model of Track::on_start_processing/process, its PlaybackStateManager, the removal rule and the handle mirror, generic in number type and sound/effect behaviour: a non-advancing track returns exact zeros and its whole subtree (sounds, sub-tracks, delays, fades) is untouched, for every number of chunks; resume continues from the frozen state; resume_at waits, resumes or falls back when the clock is removed (F1 repaired, pinned); fade then freeze; a track is removed at callback start iff its handle is dropped, every descendant is marked and (if persisting) its sounds are finished, never while a descendant or queued resource is alive (F28 repaired, pinned); removed tracks are silent; the mirror is always one of the five states and state() is total. Correspondence: real AudioManager with generated trees, sounds, clocks, pause/resume/resume_at/drop histories; output, positions and handle states compared with the model.",
    "design_ref": "DESIGN.md section 5 C12",
    "technique": "Coq proof (invariants over all histories of a generic track-tree model) + correspondence through a real AudioManager",
}
CLAIMED["C13"] = {
    "text": "Coq theorems over models of all built-in effects (filter, EQ, delay with nested feedback effects, reverb, compressor, distortion, volume, panning) written once over abstract sample operations: process on any slicing equals the per-frame recurrence (chunk-free, partition independent, any nesting, any length; bit-for-bit since no law is assumed); no panic from init for any delay time (F3 repaired) at rates >= 196 Hz; silence in -> silence out from a cleared state (R and binary32); dry mix / 0 dB volume / centre pan / 0 dB EQ / hard clip 0 dB are identities (R; binary32 with the sign-of-zero and finite-wet caveats proved and refuted where false); superposition and scaling of the linear effects over R for inputs of any length. Correspondence: each effect built by its public builder and run on generated signals/slicings, every output sample compared as binary32 bits with the Flocq instance (libm values from an oracle table). Partial: finiteness over arbitrarily long runs in binary32 is monitored, not proved (no FP error analysis).",
    "design_ref": "DESIGN.md section 5 C13",
    "technique": "Coq proof (operation-generic recurrence equivalence; R for linearity/identities; Flocq binary32 facts) + bit-exact Flocq/vm_compute correspondence",
}
CLAIMED["C16"] = {
    "text": "Coq theorems, closed under the global context: a protocol model of the sample-rate hand-off (rate loaded on the caller's thread, effect initialised, track queued, on_change_sample_rate fan-out over the arenas, callback) proves for ALL histories that every effect processes with the rate in force EXCEPT exactly the class of known finding F14 (track queued across a change), which is characterised, refuted with witnesses (sequential and racy) and replayed on the real code; scaling theorems over Q: sound position/duration, clock time and tween time are functions of elapsed seconds only (dt = 1/sr), with the exact error terms for delay length rounding and filter coefficients depending on f/sr only. Correspondence: add/change/callback histories (incl. changes injected between the load and the enqueue) on a real AudioManager with probe effects; scenes rendered at 7 device rates and across mid-stream changes with durations, clock time and tween completion measured in seconds.",
    "design_ref": "DESIGN.md section 5 C16",
    "technique": "Coq proof (all-histories protocol invariant; scaling laws over Q) + correspondence with probe effects on a real AudioManager",
}
CLAIMED["C18"] = {
    "text": "Coq theorems: WAV encode/decode round trip for every spec of the modelled subset (six encodings, any channels, any rate, any in-range frames); static load = specified conversion frame by frame (mono duplicated, >2 channels error); truncation gives a valid prefix or an error; the 8/16/24-bit sample conversions are exact, in [-1,1), strictly monotone and injective in binary32; frame_at_index / the decode scheduler return frame i of the audio for ANY conforming decoder (any packet sizes, any seek-landing function), ANY start position and ANY history of seeks (streaming = loading). Correspondence: generated WAV files, truncations and corruptions loaded by StaticSoundData::from_cursor (symphonia) and compared sample-for-sample with the reference decoder; streaming playback of the repo's wav/ogg assets vs static load from any start and after seek sequences. Known findings F25 (WAV with sample rate 0 panics), F26 (ogg stream seek misaligned). Partial: the compressed codecs (ogg/mp3/flac) are outside the model; they are compared implementation-vs-implementation only.",
    "design_ref": "DESIGN.md section 5 C18",
    "technique": "Coq proof (round trip, exact conversions via Flocq, scheduler refinement for all decoders/seek histories) + correspondence with symphonia on generated files",
}

CLAIMED["C14"] = {
    "text": "Coq theorems over R and Coquelicot's C (stdlib real axioms), for all inputs and run lengths, relating the C13 effect models (which C13 ties bit-for-bit to the code) to INDEPENDENT textbook specifications: volume and panning apply the decibel and equal-power laws; distortion is the hard/soft clip curve around the drive with |out-x| <= d x^2; the filter and EQ answer every sinusoid with the bilinear-transformed Simper / cookbook prototypes (unity pass bands, 1/k resp. 10^(dB/20) at the requested hertz at any rate, for fs/10000 <= fc < fs/2); the delay returns g^k FX^k(x) at k*floor(delay*rate) frames for every linear time-invariant loop (instantiated for volume/pan/filter/EQ chains; line length = exact floor, F35 repaired); the reverb model equals the Freeverb network (delay-line-history form) for any arithmetic, and each comb decays geometrically for feedback, damping < 1; the compressor follows o + s^n (e0 - o) with s = exp(-dt/tau) and converges to (L-thr)(1/ratio-1) dB. Correspondence: bit-exact binary32 cases for laws, delay impulse responses and Freeverb; measured sine/impulse responses of the real filters, EQs, reverb and compressor against the spec formulas (1e-3 relative / 0.02 dB), the harness's own reference formulas checked against the Coq prototypes in exact rational arithmetic. Known finding F42 (cutoff clamped at fs/10000). Partial: float rounding, SVF transients, the all-pass tail and libm are measured, not proved.",
    "design_ref": "DESIGN.md section 5 C14",
    "technique": "Coq proof over R / C of the C13 effect models against independent transfer-function specifications + bit-exact and measured-response correspondence",
}

CLAIMED["C01"] = {
    "text": "Coq theorems (40; Flocq binary32/64, stdlib real axioms only via Flocq) over all float values: the output stage (clamp, mono mean, channel layout, chunking) writes exactly n*frames samples, each finite and in [-1,1] with the documented layout, unless the bus carries NaN (refuted twin: NaN passes the clamp); on top of C02's buffer-level renderer the device buffer IS that stage applied to the specified bus; every callback is chunks of 1..b frames covering the buffer; the model's step list allocates and frees nothing; the carry loops (`while x >= 1.0 { x -= 1.0 }`: clock ticks, static and streaming fractional position) run exactly floor(x) times for 0 <= x <= 2^53 (each subtraction exact) and never return from 2^55 or +inf (F7, F8); each gain stage (sound gain, panning, track gain, wet/dry blend) has an exact NaN condition, a safe regime and witnesses (F5, F37); imported from C08: nothing is destroyed on the audio thread and no queue overflows. Correspondence/monitors: whole-manager data scenes (every resource kind, every built-in effect, boundary arguments, directed scenarios) rendered on a real audio thread with a counting allocator (allocations/frees per callback compared with the model's 0), Drop-thread probes, watchdog, per-sample finiteness/range/layout; the model predicts the output stage on the recorded bus and the chunk sequence. Known findings F5 F7 F8 F29 F33 F34 F36-F40 attributed counterfactually (a failure belongs to a class only if neutralising exactly that trigger makes the scene pass). Partial: heap freedom is an annotation validated by measurement; NaN freedom of recursive effects, promptness and whole scenes are monitors, not theorems.",
    "design_ref": "DESIGN.md section 5 C01 and section 10",
    "technique": "Coq proof (Flocq binary32/64 theorems on the output stage, carry loops and gain stages; refinement onto C02's renderer) + whole-manager scenes on a real audio thread with counting allocator and counterfactual attribution",
}

CLAIMED["C09"] = {
    "text": "Coq theorems (16 of 17 closed under the global context): for every number, frame and sample type and operations (hence bit-for-bit in IEEE), the model of StreamingSound + DecodeScheduler over ANY conforming decoder (any packetisation, any seek-landing function) is proved by a lock-step simulation to produce, whenever the decoder keeps ahead (a tight, externally checkable criterion: the ring holds max(4, pops) entries or the decoder has finished) and every rate read is non-negative, the same output frames, playback states, finished() and position index as the static-sound model (C04's), for any audio, slice inside it, start position, loop region (degenerate ones included), start time, fixed or modulator-linked values, fade-in, and any history of volume / rate / panning / pause / resume / resume_at / stop commands and callbacks; reported positions differ by less than one frame (exact arithmetic); the result is independent of packetisation and seek landing; process is atomic with respect to concurrent ring pushes. Each guard clause has a refutation witness replayed on kira (starved, negative rate; known findings F46 slice beyond the audio, F47 rate -0.0). Correspondence: a real StaticSoundData and a real StreamingSoundData over a scripted decoder with a real decoder thread (paced through two cfg yield points), side by side and through two AudioManagers; output bit patterns, states, finished() and positions compared with each other (the property) and with the model. Partial: seeks, set_loop_region and reverse are excluded (seeks: C18/C04); real codecs are C18; the fraction bound in binary64 is monitored only.",
    "design_ref": "DESIGN.md section 5 C09",
    "technique": "Coq proof (lock-step simulation over a shared tape, generic in number and sample operations) + real static and streaming sounds driven side by side with a paced decoder thread, bit-exact vm_compute model comparison",
}
REASON_WIP = "check not built yet in this session (work in progress; planned per DESIGN.md section 5)"

def main():
    props = [json.loads(l) for l in open("/verif/properties.jsonl")]
    checks, na = [], []
    for p in props:
        pid = p["id"]
        if pid in CLAIMED:
            c = CLAIMED[pid]
            checks.append({
                "property_id": pid,
                "quick_cmd": f"bin/vcheck {pid} --tier quick",
                "thorough_cmd": f"bin/vcheck {pid} --tier thorough",
                "evidence_file": f"/verif/evidence/{pid}.json",
                "replay_cmd_template": f"bin/vcheck {pid} --replay {{path}}",
                "engine": "coq-proof+correspondence",
                "level_claimed": {"category": "proof", "text": c["text"], "design_ref": c["design_ref"]},
                "level_note": "Trusted: Coq 8.16.1 kernel and VM (vm_compute, no native_compute); stdlib axioms as listed per theorem by Print Assumptions in the evidence (allow-list in bin/vcheck); the hand-written model, tied to the code only by the correspondence check on the generated cases; Rust harness + cfg hooks; Flocq as the definition of IEEE arithmetic; libm as an oracle table; sequential consistency.",
                "technique": c["technique"],
            })
        else:
            na.append({"property_id": pid, "reason": REASON_WIP})
    m = {
        "version": 1,
        "setup_cmd": "bin/setup",
        "hooks": {
            "guard": "kira_verif",
            "enable": "RUSTFLAGS=\"--cfg kira_verif\" (set in /verif/harness/.cargo/config.toml)",
            "baseline_off_cmd": "cd /repo && cargo test --workspace --no-fail-fast --offline",
            "source_commits": HOOK_COMMITS,
            "add_only": True,
        },
        "engines": [{
            "name": "coq-proof+correspondence",
            "path": "/verif/bin/vcheck",
            "serves_properties": sorted(CLAIMED.keys()),
            "kind_free_text": "machine-checked Coq theorems about hand-written executable Gallina models (coq/theories), statements pinned and assumptions audited each run (coq/audit); models tied to /repo by a differential correspondence check (Rust harness drives the real code; coqc evaluates the model with vm_compute on the same cases)",
        }],
        "checks": checks,
        "notes": "Fix commits in /repo: see known_findings.json (status fixed).",
        "not_applicable": na,
    }
    json.dump(m, open("/verif/MANIFEST.json", "w"), indent=1)

HOOK_COMMITS = ["c3a3210", "3d8e4a9", "b9497fa", "7696f91", "f571aea", "2f68677"]
if __name__ == "__main__":
    main()
