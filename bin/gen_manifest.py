#!/usr/bin/env python3
"""Writes MANIFEST.json from the table below (kept in one place so it stays valid)."""
import json

CLAIMED = {
    "C19": {
        "text": "Coq theorems over the exact (rational) instance of the clock-time / unit model: add/sub exactness, fraction in [0,1), saturation at zero, add-sub round trip, ordering = ticks+fraction, for all inputs; the binary64/binary32 (Flocq) instance of the same Gallina terms is compared bit-for-bit with kira on generated and boundary arguments every run, and the property predicates are monitored on the implementation's results. Partial: libm (powf) is an oracle; float rounding gap between the exact theorems and binary64 is measured, not proved.",
        "design_ref": "DESIGN.md section 5 C19",
        "technique": "Coq proof over Q of a Num-generic model + bit-exact Flocq/vm_compute correspondence with the Rust code",
    },
}
CLAIMED["C06"] = {
    "text": "Coq theorems (closed under the global context) over the exact rational instance of a statement-by-statement model of kira::Parameter / Tween / StartTime: the tween law for every partition of time into updates, every easing and start time (value = start + (target-start)*ease(elapsed/duration) until complete, identically the target from then on), partition independence, range, pending-start, zero duration, delayed count-down, continuity across updates, retargeting from the current value, modulator follow/hold. The binary64 / binary32 (Flocq) instance of the same Gallina terms is compared bit-for-bit with the real Parameter<f64>/Parameter<Decibels> on generated set/update histories (incl. Duration::from_secs_f64 rounding) every run; law monitors run on the implementation.",
    "design_ref": "DESIGN.md section 5 C06",
    "technique": "Coq proof (induction over update lists) on a Num-generic model + bit-exact Flocq/vm_compute correspondence",
}
CLAIMED["C03"] = {
    "text": "Coq theorems over the exact instance of a statement-by-statement model of PlaybackStateManager, StartTime::update and the shell shared by StaticSound/StreamingSound::process: Stopped is absorbing under every command, update and process call (silent, frozen); silence and frozen position whenever a call ends Paused / WaitingToResume or the start time is pending; pause/stop/resume become Paused/Stopped/Playing exactly at the update at which the fade tween completes (C06 law), at exactly silence / unity, with the gain monotone in between; resume_at waits, resumes or is cancelled per clock state; the handle mirror always equals the manager state; a finite non-looping sound reaches Stopped after exactly n-start+1 rendered frames for EVERY chunking (closed form by induction), a looping one never. The binary64/binary32 Flocq instance is compared bit-for-bit with a real static sound (state, position, finished, every output sample) on generated command histories; life-cycle monitors and unload-at-next-callback run on the implementation. Partial: streaming sound shares the shell but is driven only in C09/C10; libm powf facts come from a cfg hook log.",
    "design_ref": "DESIGN.md section 5 C03",
    "technique": "Coq proof (invariants + induction over update/chunk lists) + bit-exact Flocq/vm_compute correspondence",
}
CLAIMED["C17"] = {
    "text": "Coq theorems (Q instance; two binary64 facts via Flocq) about models of Lfo::update (rem_euclid phase), Waveform::value, the tweener modulator, Modulators::process (for_each with dummy swap, key order), Renderer::process_chunk order and Value::FromModulator/Mapping: waveform and LFO value ranges for any phase/frequency sign, phase = frac(phase0 + f t) for every partition, tweener law, once-per-chunk call log, same-chunk rule for mixer/clock readers, exact modulator->modulator chain-lag rule, mapping clamps, hold after removal. Bit-exact binary64 correspondence through a real AudioManager with probe effects/modulators on generated histories; monitors for every clause. Known finding F23 (reader updated before the modulator it reads lags one chunk).",
    "design_ref": "DESIGN.md section 5 C17",
    "technique": "Coq proof on a Num-generic model + bit-exact Flocq/vm_compute correspondence",
}
CLAIMED["C07"] = {
    "text": "Nine Coq theorems, closed under the global context, for ALL schedules of a writer thread and an audio thread over a step-level model of triple_buffer 8.1 as kira::command uses it (two-half fills so tearing is expressible, publish swap, dirty load, swap, two-half copy): slot ownership, no torn value, returned publication numbers strictly increasing (exactly once, last write wins, nothing late), quiescent delivery, callback semantics (a command issued between callbacks j and j+1 is applied in j+1 iff it is the last of its kind, racing ones in j+1 or j+2, never twice), first-callback delivery, independence of kinds, decoder-side kinds. Correspondence: all 2^12 / 3^7 whole-call sequences and random step sequences on the real crate compared with the model; all 63 command kinds found by grepping /repo exercised through real handles (burst vs last-only twin runs, absolute probes); two-thread stress. Partial: sequential consistency assumed; interleavings inside triple_buffer on real threads only sampled.",
    "design_ref": "DESIGN.md section 5 C07",
    "technique": "Coq proof (inductive invariant over all interleavings) + correspondence of the protocol model with the real crate and handles",
}
CLAIMED["C15"] = {
    "text": "Coq theorems over R (stdlib real axioms) about a model of SpatialData::spatialize written once over abstract scalars and reproducing glam 0.30's operation order: level = attenuation(distance) x per-ear gains; attenuation is a function of distance only, 1 within min, exactly 0 from max on, non-increasing for every monotone easing (libm monotonicity as a named hypothesis), total for empty/inverted ranges (F11 repaired); ear gains in [1-s, 1]; strength 0 passes the frame unpanned; side preference at or beyond the ear plane; mirror swap; full rigid-motion invariance; no listener => exact silence; distance-mapped parameters follow the distance; no division by zero at coincident points. The binary32 instance is compared bit-for-bit with a real AudioManager on generated positions/orientations/ranges/strengths/tweens/listener histories; relational monitors on the implementation. Known finding F22 (emitter inside the head). Partial: finiteness over all of binary32 by examples and monitors only; orientation slerp treated as observed input.",
    "design_ref": "DESIGN.md section 5 C15",
    "technique": "Coq proof over R of a scalar-generic model + bit-exact Flocq/vm_compute correspondence",
}
REASON_WIP = "check not built yet in this session (work in progress; planned per DESIGN.md section 5)"

def main():
    props = [json.loads(l) for l in open("/verif/properties.jsonl")]
    checks, na = [], []
    for p in props:
        pid = p["id"]
        if pid in CLAIMED:
            c = CLAIMED[pid]
            checks.append({
                "property_id": pid,
                "quick_cmd": f"bin/vcheck {pid} --tier quick",
                "thorough_cmd": f"bin/vcheck {pid} --tier thorough",
                "evidence_file": f"/verif/evidence/{pid}.json",
                "replay_cmd_template": f"bin/vcheck {pid} --replay {{path}}",
                "engine": "coq-proof+correspondence",
                "level_claimed": {"category": "proof", "text": c["text"], "design_ref": c["design_ref"]},
                "level_note": "Trusted: Coq 8.16.1 kernel and VM (vm_compute, no native_compute); stdlib axioms as listed per theorem by Print Assumptions in the evidence (allow-list in bin/vcheck); the hand-written model, tied to the code only by the correspondence check on the generated cases; Rust harness + cfg hooks; Flocq as the definition of IEEE arithmetic; libm as an oracle table; sequential consistency.",
                "technique": c["technique"],
            })
        else:
            na.append({"property_id": pid, "reason": REASON_WIP})
    m = {
        "version": 1,
        "setup_cmd": "bin/setup",
        "hooks": {
            "guard": "kira_verif",
            "enable": "RUSTFLAGS=\"--cfg kira_verif\" (set in /verif/harness/.cargo/config.toml)",
            "baseline_off_cmd": "cd /repo && cargo test --workspace --no-fail-fast --offline",
            "source_commits": HOOK_COMMITS,
            "add_only": True,
        },
        "engines": [{
            "name": "coq-proof+correspondence",
            "path": "/verif/bin/vcheck",
            "serves_properties": sorted(CLAIMED.keys()),
            "kind_free_text": "machine-checked Coq theorems about hand-written executable Gallina models (coq/theories), statements pinned and assumptions audited each run (coq/audit); models tied to /repo by a differential correspondence check (Rust harness drives the real code; coqc evaluates the model with vm_compute on the same cases)",
        }],
        "checks": checks,
        "notes": "Fix commits in /repo: see known_findings.json (status fixed).",
        "not_applicable": na,
    }
    json.dump(m, open("/verif/MANIFEST.json", "w"), indent=1)

HOOK_COMMITS = ["c3a3210"]
if __name__ == "__main__":
    main()
